"""C19 — DDEHistory is the piecewise-linear interpolant of what it was given.
Model: coq/theories/History.v (Impl `run`, Spec `arun`); theorems: coq/properties/C19.v.
Tie: E1 — scripts of update/query/caller-mutation operations run on the real DDEHistory and on the model."""
import json, os
from fractions import Fraction as Fr
from core import *

NEEDS = ["History", "HistoryProofs", "HistoryCont", "Corr"]

# ---------------------------------------------------------------------------------------------- impl side (worker)
def impl(case):
    import numpy as np
    from pyrates.backend.base.base_backend import DDEHistory
    from pyr import fracs
    dt = {"float64": np.float64, "float32": np.float32, "complex128": np.complex128, "int64": np.int64, "int32": np.int32}[case["dtype"]]
    # an integer-typed history holds integer records; the interpolant between them is not an integer, so a query may answer in
    # float64 (numpy's promotion) as well as in the buffer's type - only the VALUES are compared for those
    ok_dtypes = (np.dtype(dt), np.dtype(np.float64)) if case["dtype"] in ("int64", "int32") else (np.dtype(dt),)
    shape = tuple(case["shape"])
    cplx = case["dtype"] == "complex128"
    def arr(v):
        f = [float(Fr(x)) for x in v]
        if cplx:                      # a complex vector of k entries is written as k real parts followed by k imaginary parts
            k = len(f) // 2
            f = [complex(a, b) for a, b in zip(f[:k], f[k:])]
        return np.array(f, dtype=dt).reshape(shape)
    cls = DDEHistory
    if case["cap"] is None and case["init_cap"] != 1024:
        cls = type("H", (DDEHistory,), {"_INITIAL_CAPACITY": case["init_cap"]})
    def tval(x, ty):
        """a time stamp supplied as the given scalar type; the value must be exactly representable in it"""
        q = Fr(x)
        mk = {None: float, "f64": np.float64, "f32": np.float32, "f16": np.float16, "longdouble": np.longdouble,
              "i32": lambda v: np.int32(int(v)), "i64": lambda v: np.int64(int(v)), "int": lambda v: int(v),
              "arr32": lambda v: np.array(v, dtype=np.float32), "arr64": lambda v: np.array(v, dtype=np.float64)}[ty]
        v = mk(float(q)) if ty not in ("i32", "i64", "int") else mk(q)
        assert Fr(float(v)) == q, (x, ty)
        return v
    h = cls(arr(case["y0"]), tval(case["t0"], case.get("t0_type")), max_steps=case["cap"])
    outs, passed = [], []
    for op in case["ops"]:
        if op[0] == "u":
            a = arr(op[2]); passed.append(a)
            try:
                h.update(tval(op[1], op[3] if len(op) > 3 else None), a)
                outs.append("done")
            except IndexError:
                outs.append("refused")
        elif op[0] == "q":
            try:
                r = np.asarray(h(tval(op[1], op[2] if len(op) > 2 else None)))
            except TypeError as e:        # numpy casting errors (UFuncTypeError) are TypeErrors: a query never raises in the Spec
                outs.append(["wrong-shape-or-dtype", "raised", type(e).__name__]); continue
            if r.shape != shape or r.dtype not in ok_dtypes:
                outs.append(["wrong-shape-or-dtype", str(r.shape), str(r.dtype)])    # Spec: a query returns a state of the history's shape and dtype
            elif cplx:
                outs.append(fracs(r.real) + fracs(r.imag))
            else:
                outs.append(fracs(r))
        elif op[0] == "m":           # the caller overwrites an array it passed to update earlier
            if passed:
                passed[op[1] % len(passed)][...] = 12345.0
            outs.append("mut")
    return outs

# ---------------------------------------------------------------------------------------------- generator
WILD_VALUES = [1e16, 1.0, -3.3, 7e-9, 0.1, 123456.789, -1e15, 2.5e-7, 1/3, -0.7, 9007199254740993.0, 0.0]
WILD_GAPS = [0.1, 0.3, 1e-3, 0.7, 2.2, 1/3]

def gen_case(rng, big=False, wild=False, scaled=False, typed=False):
    """typed: record (and some query) times are supplied as numpy scalars of every kind (float16/32/64, longdouble, int32/64),
    0-d arrays and Python ints; record times are exactly representable in their type and sit at a large |t|/spacing, the float64
    queries between them are NOT representable in float32/float16.
    scaled: record times that are huge relative to their spacing (t0 = +-2^k, gaps down to 2^-(42-k)), negative times, and
    mixed scales (occasional gaps of the order of t0, so that negative histories cross zero); everything stays dyadic and
    exactly representable, so the comparison stays exact.
    wild: arbitrary (non-dyadic, badly scaled) float data with queries only at, before and after record times, where the
    property demands the stored record *exactly* whatever the rounding of the interpolation formula."""
    shape = rng.choice([[], [1], [2], [3], [2, 2], [1, 3]])
    k = 1
    for s in shape:
        k *= s
    dtype = rng.choice(["float64", "complex128"]) if wild else rng.choice(["float64", "float64", "float32", "complex128", "int64", "int32"])
    if dtype == "complex128":
        k *= 2
    val = (lambda: str(Fr(rng.choice(WILD_VALUES)))) if wild else (lambda: str(Fr(rng.randint(-64, 64), 8)))
    if dtype in ("int64", "int32"):      # integer state (seed C19-m8): integer records, dyadic query times -> exact float64 interpolants
        val = lambda: str(Fr(rng.randint(-64, 64)))
    vec = lambda: [val() for _ in range(k)]
    bounded = (not big) and rng.random() < 0.3
    cap = rng.choice([0, 1, 2, 3, 5, 8]) if bounded else None
    init_cap = 1024 if big else rng.choice([1, 2, 3, 4, 16])
    t0 = Fr(rng.choice([0.0, -0.3, 1.7])) if wild else Fr(rng.randint(-16, 16), 4)
    if scaled:
        kexp = rng.randint(6, 30)
        jmax = 42 - kexp
        t0 = rng.choice([1, 1, -1]) * Fr(2) ** kexp + Fr(rng.randint(-8, 8), 8)
        def gap():
            if rng.random() < 0.15:
                return Fr(2) ** (kexp - rng.randint(0, 4))                       # a gap of the order of |t0|
            return Fr(rng.randint(1, 16), 2 ** rng.randint(max(0, jmax - 14), jmax))
    ttype = None
    if typed:
        ttype = rng.choice(["f32", "f32", "f32", "arr32", "f16", "i32", "i64", "int", "longdouble", "arr64", "f64"])
        mant = {"f32": 24, "arr32": 24, "f16": 11}.get(ttype, 40)
        if ttype in ("i32", "i64", "int"):
            t0 = Fr(rng.choice([1, -1]) * rng.randint(1, 10 ** 6))
            gap = lambda: Fr(rng.randint(1, 9))
        else:
            kexp = rng.randint(3, mant - 8)
            unit = Fr(1, 2 ** (mant - 2 - kexp))                     # record times use (almost) the whole mantissa of the type
            t0 = rng.choice([1, 1, -1]) * Fr(2) ** kexp + unit * rng.randint(0, 7)
            gap = lambda: unit * rng.randint(1, 4)
    times, t = [t0], t0
    nops = rng.randint(2500, 3300) if big else rng.randint(3, 60)
    ops = []
    def qtime():
        r = rng.random()
        i = rng.randrange(len(times))
        if r < 0.15:
            return Fr(float(times[0] - Fr(rng.randint(0, 8), 4)))
        if r < 0.3:
            return Fr(float(times[-1] + Fr(rng.randint(0, 8), 4)))
        if r < 0.5 or len(times) == 1 or wild:
            return times[i]
        i = rng.randrange(len(times) - 1)
        return times[i] + (times[i + 1] - times[i]) * Fr(rng.randint(0, 8), 8)
    def qop():
        q = qtime()
        return ["q", str(q)] + ([ttype] if typed and q in times and rng.random() < 0.5 else [])
    for _ in range(nops):
        r = rng.random()
        if r < (0.97 if big else 0.5):
            t = Fr(float(t) + rng.choice(WILD_GAPS)) if wild else (t + gap() if (scaled or typed) else t + Fr(1, 8) * 2 ** rng.randint(0, 4))
            assert Fr(float(t)) == t
            ops.append(["u", str(t), vec()] + ([ttype if rng.random() < 0.8 else None] if typed else []))
            # a refused update does not enter the record list: track what the spec would accept
            if cap is None or len(times) < max(cap, 1):
                times.append(t)
        elif r < (0.985 if big else 0.92):
            ops.append(qop())
        else:
            ops.append(["m", rng.randrange(1000)])
    for _ in range(6 if not big else 40):
        ops.append(qop())
    return dict(y0=vec(), shape=shape, t0=str(t0), cap=cap, init_cap=init_cap, dtype=dtype, ops=ops, wild=wild, scaled=scaled, typed=typed, t0_type=ttype)

def nontrivial(case):
    eff_cap = case["cap"]
    nup = sum(1 for o in case["ops"] if o[0] == "u")
    growth = eff_cap is None and nup + 1 > case["init_cap"]
    times = [Fr(case["t0"])]
    between = False
    for o in case["ops"]:
        if o[0] == "u" and (eff_cap is None or len(times) < max(eff_cap, 1)):
            times.append(Fr(o[1]))
        if o[0] == "q":
            t = Fr(o[1])
            if times[0] < t < times[-1] and t not in times:
                between = True
    return growth or between

# ---------------------------------------------------------------------------------------------- model side
HEADER = """From Coq Require Import List ZArith QArith Qcanon Bool.
From PV Require Import History Corr.
Import ListNotations.
Definition runI (c : row * Qc * nat * bool * list op) : list out :=
  let '(y0, t0, cap, g, ops) := c in snd (run (init y0 t0 cap g []) ops).
Definition runS (c : row * Qc * nat * bool * list op) : list out :=
  let '(y0, t0, cap, g, ops) := c in snd (arun (ainit y0 t0 cap g) ops).
Definition okI (p : (row * Qc * nat * bool * list op) * list out) := outs_eqb (runI (fst p)) (snd p).
Definition okS (p : (row * Qc * nat * bool * list op) * list out) := outs_eqb (runS (fst p)) (snd p).
Definition guard (c : row * Qc * nat * bool * list op) : bool :=
  let '(y0, t0, cap, g, ops) := c in incrb (t0 :: update_times ops).
"""

def coq_case(case, outs):
    row = lambda v: clist([cq(x) for x in v])
    ops, exp = [], []
    for o, r in zip(case["ops"], outs):
        if o[0] == "u":
            ops.append(f"Update {cq(o[1])} {row(o[2])} []")
            exp.append("ODone" if r == "done" else "ORefused" if r == "refused" else "OVal []")
        elif o[0] == "q":
            ops.append(f"Query {cq(o[1])}")
            exp.append(f"OVal {row(r)}" if isinstance(r, list) and not (r and r[0] == "wrong-shape-or-dtype") else "ODone")
    growable = case["cap"] is None
    cap = case["init_cap"] if growable else case["cap"]
    return f"(({row(case['y0'])}, {cq(case['t0'])}, {cnat(cap)}, {cbool(growable)}, {clist(ops)}), {clist(exp)})"

def model_compare(ctx, cases, outs, tag):
    """returns (bad_vs_Impl, bad_vs_Spec, guard_false) index lists"""
    badI, badS, gfalse = [], [], []
    shard = 60
    for s in range(0, len(cases), shard):
        terms = [coq_case(c, o) for c, o in zip(cases[s:s + shard], outs[s:s + shard])]
        body = ("Definition cases := " + clist(terms) + ".\n"
                "Eval vm_compute in (mismatches okI cases).\nEval vm_compute in (mismatches okS cases).\n"
                "Eval vm_compute in (mismatches (fun p => guard (fst p)) cases).\n")
        out = coq_eval(ctx, f"c19_{tag}_{s}", HEADER, body)
        ls = parse_nat_lists(out)
        assert len(ls) == 3, out[:400]
        badI += [s + i for i in ls[0]]; badS += [s + i for i in ls[1]]; gfalse += [s + i for i in ls[2]]
    return badI, badS, gfalse

def model_outputs(ctx, case, outs, tag):
    body = f"Definition c := {coq_case(case, outs)}.\nEval vm_compute in (runS (fst c)).\nEval vm_compute in (runI (fst c)).\n"
    try:
        return coq_eval(ctx, f"c19_show_{tag}", HEADER, body)[:6000]
    except Exception as e:
        return f"(model evaluation failed: {e})"

# ---------------------------------------------------------------------------------------------- shrinking
def fails(ctx, case, tag):
    r = run_impl(ctx, "c19", "impl", [case], nworkers=1)[0]
    if isinstance(r, dict):
        return True, r
    badI, badS, _ = model_compare(ctx, [case], [r], tag)
    return bool(badS), r

def shrink(ctx, case):
    best = case
    budget = 30
    n = len(best["ops"])
    chunk = max(1, n // 2)
    while chunk >= 1 and budget > 0:
        i, progressed = 0, False
        while i < len(best["ops"]) and budget > 0:
            cand = dict(best, ops=best["ops"][:i] + best["ops"][i + chunk:])
            budget -= 1
            if cand["ops"] and fails(ctx, cand, f"s{budget}")[0]:
                best, progressed = cand, True
            else:
                i += chunk
        if not progressed:
            chunk //= 2
    return best

# ---------------------------------------------------------------------------------------------- check
def check(ctx):
    pr = proof_gate(ctx, NEEDS)
    problem = proof_problem(pr)
    n_small, n_big = (160, 2) if ctx.tier == "quick" else (2500, 12)
    if problem:
        n_small *= 5
    if ctx.replay:
        rp = json.load(open(ctx.replay))
        cases = [rp["case"]] if "case" in rp else []
    else:
        cases = (load_corpus("C19") + [gen_case(ctx.rng) for _ in range(n_small)] + [gen_case(ctx.rng, wild=True) for _ in range(n_small // 3)] + [gen_case(ctx.rng, scaled=True) for _ in range(n_small // 3)] + [gen_case(ctx.rng, typed=True) for _ in range(n_small // 3)]
                 + [gen_case(ctx.rng, big=True) for _ in range(n_big)])
    outs = run_impl(ctx, "c19", "impl", cases)
    crashed = [i for i, r in enumerate(outs) if isinstance(r, dict)]
    good = [i for i in range(len(cases)) if i not in crashed]
    badI, badS, gfalse = model_compare(ctx, [cases[i] for i in good], [outs[i] for i in good], "main")
    badI = [good[i] for i in badI]; badS = [good[i] for i in badS]; gfalse = [good[i] for i in gfalse]
    assert not gfalse, "generator produced non-increasing times"
    ctx.note(f"E1: {len(cases)} scripts, {sum(len(c['ops']) for c in cases)} operations; impl-vs-Impl mismatches {len(badI)}, "
             f"impl-vs-Spec mismatches {len(badS)}, harness/worker errors {len(crashed)}")
    conclude(ctx, cases=cases, impl_out=outs, bad_spec=badS, bad_impl=badI, crashed=crashed, problem=problem,
             spec_name="History.arun (piecewise-linear interpolant of the accepted records)", impl_name="History.run",
             shrink=lambda c: shrink(ctx, c),
             show=lambda c: (lambda r: dict(implementation_output=r, model_output=model_outputs(ctx, c, r, "show") if not isinstance(r, dict) else None))(fails(ctx, c, "show")[1]))
    nt = {canon(c) for c in cases if nontrivial(c)}
    hist = dict(wild_float_data=sum(1 for c in cases if c.get("wild")), large_time_small_spacing=sum(1 for c in cases if c.get("scaled")), typed_time_stamps={ty: sum(1 for c in cases if c.get("t0_type") == ty) for ty in ("f32", "arr32", "f16", "i32", "i64", "int", "longdouble", "arr64", "f64")}, complex128=sum(1 for c in cases if c["dtype"] == "complex128"), bounded=sum(1 for c in cases if c["cap"] is not None), float32=sum(1 for c in cases if c["dtype"] == "float32"), integer_state=sum(1 for c in cases if c["dtype"] in ("int64", "int32")),
                with_growth=sum(1 for c in cases if c["cap"] is None and sum(1 for o in c["ops"] if o[0] == "u") + 1 > c["init_cap"]),
                real_capacity_1024=sum(1 for c in cases if c["init_cap"] == 1024 and c["cap"] is None),
                ops=dict(update=sum(1 for c in cases for o in c["ops"] if o[0] == "u"), query=sum(1 for c in cases for o in c["ops"] if o[0] == "q"),
                         caller_mutation=sum(1 for c in cases for o in c["ops"] if o[0] == "m")),
                refused=sum(1 for o in outs if not isinstance(o, dict) for r in o if r == "refused"),
                shapes=sorted({str(c["shape"]) for c in cases}))
    sample = dict(cases[0], ops=cases[0]["ops"][:8])
    write_evidence(ctx, evaluations=len(cases), distinct_nontrivial=len(nt),
                   rule="random scripts of update/query/caller-mutation operations on DDEHistory (capacities 1..16 and the real 1024, bounded "
                        "histories, shapes (),(k,),(k,m), float64/float32/complex128 with the result's shape and dtype checked, dyadic data so that float "
                        "arithmetic is exact; plus a stream of badly scaled non-dyadic floats queried only at/before/after record times, where the stored "
                        "record must come back exactly); a script is non-trivial "
                        "when it crosses >= 1 growth event or queries strictly between two records; distinct = distinct canonical JSON",
                   samples=[sample], extra=dict(input_distribution=hist, impl_vs_model_mismatches=len(badI), impl_vs_spec_mismatches=len(badS)),
                   trusted_base=["numpy float64/float32 arithmetic is exact on the generated dyadic data (checked: results are compared as exact rationals)"],
                   assumptions=["times of update calls strictly increasing (hypothesis of the property and of C19_refines)",
                                "IEEE rounding is outside the model: the model computes in Qc"])
