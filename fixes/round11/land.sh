#!/bin/bash
# land.sh : apply the round-11 series to /repo, one `fix:` commit per patch (each was tested on a scratch worktree with the same
# parent and content: /tmp/r7/build_series.log). Usage: fixes/round7/land.sh [first-index]
set -eu
cd "$(dirname "$0")"
for f in [0-9][0-9]_D*.diff; do [ "${f%%_*}" -lt "${1:-1}" ] && continue
  grep -v '^#' $f > /tmp/r7_cur.diff
  git -C /repo apply /tmp/r7_cur.diff
  git -C /repo add -A
  git -C /repo commit -q -F "$PWD"/msgs/${f%.diff}.txt
  d=${f#*_}; d=${d%.diff}
  echo "$d $(git -C /repo rev-parse --short HEAD)"
done
rm -f /tmp/r7_cur.diff
