#!/bin/bash
# Build the framework from files on disk only (offline): regenerate coq/gen from /repo, full .vo build of the
# theories, compile every property file once.  Checks rebuild incrementally on every run.
set -u
cd "$(dirname "$0")"
export PATH=/venv/bin:$PATH
[ -f harness/py2v.py ] && /venv/bin/python harness/py2v.py
./coq/build.sh -k | tail -5
rc=0
for f in coq/properties/C*.v; do
  timeout 900 coqc -Q coq/theories PV -Q coq/gen PVG "$f" > "${f%.v}.log" 2>&1 || { echo "FAILED: $f"; rc=1; }
done
exit $rc
