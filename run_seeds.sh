#!/bin/bash
# run_seeds.sh "<seeds>" [tier] : run every claimed check once per seed (false-alarm hunting on the unchanged tree)
cd "$(dirname "$0")"
tier=${2:-quick}
for s in $1; do for p in $(/venv/bin/python -c "import json;print(' '.join(c['property_id'] for c in json.load(open('MANIFEST.json'))['checks']))"); do
  t0=$(date +%s); VERIF_SEED=$s ./check $p --tier $tier > /tmp/rs_${p}_$s.log 2>&1; rc=$?
  echo "$p seed=$s tier=$tier rc=$rc $(( $(date +%s)-t0 ))s viol=$(grep -c '^VIOLATION' /tmp/rs_${p}_$s.log) known=$(grep -c '^KNOWN' /tmp/rs_${p}_$s.log)"
done; done
