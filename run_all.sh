#!/bin/bash
# run every claimed quick (or $1=thorough) check sequentially; summary at the end
cd "$(dirname "$0")"
tier=${1:-quick}
for p in $(/venv/bin/python -c "import json;print(' '.join(c['property_id'] for c in json.load(open('MANIFEST.json'))['checks']))"); do
  s=$(date +%s); ./check $p --tier $tier > /tmp/run_all_$p.log 2>&1; rc=$?; e=$(date +%s)
  echo "$p rc=$rc $((e-s))s $(grep -c '^VIOLATION' /tmp/run_all_$p.log) violations $(grep -c '^KNOWN-FINDING' /tmp/run_all_$p.log) known"
done
